// synfacts: dumps the *unexpanded* syntax tree of every .rs file under a source
// directory as compact JSON. Macro invocations keep their raw token trees and,
// when the tokens parse as a comma-separated expression list, the parsed
// arguments as well. All interpretation happens in the Python rule library.
use proc_macro2::{Delimiter, Spacing, TokenStream, TokenTree};
use quote::ToTokens;
use std::fmt::Write as _;
use syn::punctuated::Punctuated;
use syn::spanned::Spanned;

#[derive(Clone)]
enum J {
    Null,
    Bool(bool),
    Int(i64),
    Str(String),
    Arr(Vec<J>),
    Obj(Vec<(String, J)>),
}

fn s(x: impl Into<String>) -> J {
    J::Str(x.into())
}

fn obj(v: Vec<(&str, J)>) -> J {
    J::Obj(v.into_iter().map(|(k, v)| (k.to_string(), v)).collect())
}

fn esc(out: &mut String, st: &str) {
    out.push('"');
    for c in st.chars() {
        match c {
            '"' => out.push_str("\\\""),
            '\\' => out.push_str("\\\\"),
            '\n' => out.push_str("\\n"),
            '\r' => out.push_str("\\r"),
            '\t' => out.push_str("\\t"),
            c if (c as u32) < 0x20 => {
                let _ = write!(out, "\\u{:04x}", c as u32);
            }
            c => out.push(c),
        }
    }
    out.push('"');
}

fn emit(out: &mut String, j: &J) {
    match j {
        J::Null => out.push_str("null"),
        J::Bool(b) => out.push_str(if *b { "true" } else { "false" }),
        J::Int(i) => {
            let _ = write!(out, "{}", i);
        }
        J::Str(st) => esc(out, st),
        J::Arr(v) => {
            out.push('[');
            for (i, x) in v.iter().enumerate() {
                if i > 0 {
                    out.push(',');
                }
                emit(out, x);
            }
            out.push(']');
        }
        J::Obj(v) => {
            out.push('{');
            for (i, (k, x)) in v.iter().enumerate() {
                if i > 0 {
                    out.push(',');
                }
                esc(out, k);
                out.push(':');
                emit(out, x);
            }
            out.push('}');
        }
    }
}

fn ln<T: Spanned>(t: &T) -> J {
    J::Int(t.span().start().line as i64)
}

fn toks<T: ToTokens>(t: &T) -> String {
    // compact, stable rendering of a token stream
    let mut out = String::new();
    render_ts(&mut out, t.to_token_stream());
    out
}

fn render_ts(out: &mut String, ts: TokenStream) {
    let mut prev_joint = true;
    let mut prev_punct = false;
    for tt in ts {
        match tt {
            TokenTree::Group(g) => {
                let (o, c) = match g.delimiter() {
                    Delimiter::Parenthesis => ("(", ")"),
                    Delimiter::Brace => ("{", "}"),
                    Delimiter::Bracket => ("[", "]"),
                    Delimiter::None => ("", ""),
                };
                out.push_str(o);
                render_ts(out, g.stream());
                out.push_str(c);
                prev_joint = true;
                prev_punct = false;
            }
            TokenTree::Ident(i) => {
                if !prev_joint && !prev_punct {
                    out.push(' ');
                }
                let _ = write!(out, "{}", i);
                prev_joint = false;
                prev_punct = false;
            }
            TokenTree::Literal(l) => {
                if !prev_joint && !prev_punct {
                    out.push(' ');
                }
                let _ = write!(out, "{}", l);
                prev_joint = false;
                prev_punct = false;
            }
            TokenTree::Punct(p) => {
                let ch = p.as_char();
                if ch == ',' {
                    out.push_str(", ");
                    prev_joint = true;
                    prev_punct = false;
                    continue;
                }
                out.push(ch);
                prev_joint = false;
                prev_punct = true;
                let _ = p.spacing();
            }
        }
    }
}

fn lit_str_value(l: &proc_macro2::Literal) -> Option<String> {
    let src = l.to_string();
    if src.starts_with('"') || src.starts_with("r\"") || src.starts_with("r#") {
        if let Ok(ls) = syn::parse_str::<syn::LitStr>(&src) {
            return Some(ls.value());
        }
    }
    None
}

fn tt_list(ts: TokenStream) -> J {
    let mut out: Vec<J> = Vec::new();
    let mut pending = String::new();
    let mut pending_ln = 0i64;
    for tt in ts {
        match tt {
            TokenTree::Punct(p) => {
                let ch = p.as_char();
                if (ch == ',' || ch == ';') && !pending.is_empty() {
                    out.push(obj(vec![("p", s(pending.clone())), ("ln", J::Int(pending_ln))]));
                    pending.clear();
                }
                if pending.is_empty() {
                    pending_ln = p.span().start().line as i64;
                }
                pending.push(ch);
                if p.spacing() == Spacing::Alone || ch == ',' || ch == ';' {
                    out.push(obj(vec![("p", s(pending.clone())), ("ln", J::Int(pending_ln))]));
                    pending.clear();
                }
                continue;
            }
            _ => {
                if !pending.is_empty() {
                    out.push(obj(vec![("p", s(pending.clone())), ("ln", J::Int(pending_ln))]));
                    pending.clear();
                }
            }
        }
        match tt {
            TokenTree::Group(g) => {
                let d = match g.delimiter() {
                    Delimiter::Parenthesis => "(",
                    Delimiter::Brace => "{",
                    Delimiter::Bracket => "[",
                    Delimiter::None => "",
                };
                out.push(obj(vec![
                    ("g", s(d)),
                    ("t", tt_list(g.stream())),
                    ("ln", J::Int(g.span().start().line as i64)),
                ]));
            }
            TokenTree::Ident(i) => out.push(obj(vec![("i", s(i.to_string())), ("ln", J::Int(i.span().start().line as i64))])),
            TokenTree::Literal(l) => {
                let mut v = vec![("l", s(l.to_string())), ("ln", J::Int(l.span().start().line as i64))];
                if let Some(sv) = lit_str_value(&l) {
                    v.push(("s", s(sv)));
                }
                out.push(obj(v));
            }
            TokenTree::Punct(_) => unreachable!(),
        }
    }
    if !pending.is_empty() {
        out.push(obj(vec![("p", s(pending)), ("ln", J::Int(pending_ln))]));
    }
    J::Arr(out)
}

fn mac(m: &syn::Macro) -> J {
    let name = toks(&m.path);
    let mut v = vec![("k", s("macro")), ("name", s(name)), ("ln", ln(&m.path)), ("tokens", tt_list(m.tokens.clone()))];
    // try: comma separated expressions
    if let Ok(p) = m.parse_body_with(Punctuated::<syn::Expr, syn::Token![,]>::parse_terminated) {
        v.push(("args", J::Arr(p.iter().map(expr).collect())));
    }
    obj(v)
}

fn block(b: &syn::Block) -> J {
    obj(vec![("k", s("block")), ("ln", ln(b)), ("stmts", J::Arr(b.stmts.iter().map(stmt).collect()))])
}

fn stmt(st: &syn::Stmt) -> J {
    match st {
        syn::Stmt::Local(l) => {
            let (pat_s, ty_s) = match &l.pat {
                syn::Pat::Type(pt) => (toks(&pt.pat), s(toks(&pt.ty))),
                p => (toks(p), J::Null),
            };
            let mut v = vec![("k", s("local")), ("ln", ln(l)), ("pat", s(pat_s)), ("ty", ty_s)];
            if let Some(init) = &l.init {
                v.push(("init", expr(&init.expr)));
                if let Some((_, e)) = &init.diverge {
                    v.push(("else", expr(e)));
                }
            }
            obj(v)
        }
        syn::Stmt::Item(it) => obj(vec![("k", s("item")), ("item", item(it))]),
        syn::Stmt::Expr(e, semi) => obj(vec![("k", s("expr")), ("semi", J::Bool(semi.is_some())), ("e", expr(e))]),
        syn::Stmt::Macro(m) => obj(vec![("k", s("expr")), ("semi", J::Bool(m.semi_token.is_some())), ("e", mac(&m.mac))]),
    }
}

fn opt(e: &Option<Box<syn::Expr>>) -> J {
    match e {
        Some(e) => expr(e),
        None => J::Null,
    }
}

fn expr(e: &syn::Expr) -> J {
    use syn::Expr::*;
    match e {
        Lit(l) => {
            let (t, v) = match &l.lit {
                syn::Lit::Str(x) => ("str", s(x.value())),
                syn::Lit::ByteStr(x) => ("bytestr", s(String::from_utf8_lossy(&x.value()).to_string())),
                syn::Lit::Byte(x) => ("byte", J::Int(x.value() as i64)),
                syn::Lit::Char(x) => ("char", s(x.value().to_string())),
                syn::Lit::Int(x) => ("int", s(x.base10_digits().to_string())),
                syn::Lit::Float(x) => ("float", s(x.base10_digits().to_string())),
                syn::Lit::Bool(x) => ("bool", J::Bool(x.value)),
                other => ("other", s(toks(other))),
            };
            obj(vec![("k", s("lit")), ("t", s(t)), ("v", v), ("ln", ln(l))])
        }
        Path(p) => obj(vec![("k", s("path")), ("v", s(toks(p))), ("ln", ln(p))]),
        Call(c) => obj(vec![
            ("k", s("call")),
            ("ln", ln(c)),
            ("f", expr(&c.func)),
            ("args", J::Arr(c.args.iter().map(expr).collect())),
        ]),
        MethodCall(c) => obj(vec![
            ("k", s("mcall")),
            ("ln", ln(&c.method)),
            ("recv", expr(&c.receiver)),
            ("m", s(c.method.to_string())),
            ("turbofish", match &c.turbofish { Some(t) => s(toks(t)), None => J::Null }),
            ("args", J::Arr(c.args.iter().map(expr).collect())),
        ]),
        Macro(m) => mac(&m.mac),
        Match(m) => obj(vec![
            ("k", s("match")),
            ("ln", ln(m)),
            ("on", expr(&m.expr)),
            (
                "arms",
                J::Arr(
                    m.arms
                        .iter()
                        .map(|a| {
                            obj(vec![
                                ("pat", s(toks(&a.pat))),
                                ("ln", ln(&a.pat)),
                                ("guard", match &a.guard { Some((_, g)) => expr(g), None => J::Null }),
                                ("body", expr(&a.body)),
                            ])
                        })
                        .collect(),
                ),
            ),
        ]),
        If(i) => obj(vec![
            ("k", s("if")),
            ("ln", ln(i)),
            ("cond", expr(&i.cond)),
            ("then", block(&i.then_branch)),
            ("else", match &i.else_branch { Some((_, e)) => expr(e), None => J::Null }),
        ]),
        Let(l) => obj(vec![("k", s("let")), ("ln", ln(l)), ("pat", s(toks(&l.pat))), ("e", expr(&l.expr))]),
        Block(b) => block(&b.block),
        Unsafe(b) => block(&b.block),
        Binary(b) => obj(vec![
            ("k", s("binary")),
            ("ln", ln(b)),
            ("op", s(toks(&b.op))),
            ("l", expr(&b.left)),
            ("r", expr(&b.right)),
        ]),
        Unary(u) => obj(vec![("k", s("unary")), ("ln", ln(u)), ("op", s(toks(&u.op))), ("e", expr(&u.expr))]),
        Reference(r) => obj(vec![
            ("k", s("ref")),
            ("ln", ln(r)),
            ("mut", J::Bool(r.mutability.is_some())),
            ("e", expr(&r.expr)),
        ]),
        Field(f) => obj(vec![("k", s("field")), ("ln", ln(f)), ("e", expr(&f.base)), ("name", s(toks(&f.member)))]),
        Index(i) => obj(vec![("k", s("index")), ("ln", ln(i)), ("e", expr(&i.expr)), ("i", expr(&i.index))]),
        Struct(st) => obj(vec![
            ("k", s("struct")),
            ("ln", ln(st)),
            ("path", s(toks(&st.path))),
            (
                "fields",
                J::Arr(
                    st.fields
                        .iter()
                        .map(|f| obj(vec![("name", s(toks(&f.member))), ("e", expr(&f.expr))]))
                        .collect(),
                ),
            ),
            ("rest", opt(&st.rest)),
        ]),
        Tuple(t) => obj(vec![("k", s("tuple")), ("ln", ln(t)), ("elems", J::Arr(t.elems.iter().map(expr).collect()))]),
        Array(t) => obj(vec![("k", s("array")), ("ln", ln(t)), ("elems", J::Arr(t.elems.iter().map(expr).collect()))]),
        Closure(c) => obj(vec![
            ("k", s("closure")),
            ("ln", ln(c)),
            ("params", J::Arr(c.inputs.iter().map(|p| s(toks(p))).collect())),
            ("body", expr(&c.body)),
        ]),
        ForLoop(f) => obj(vec![
            ("k", s("for")),
            ("ln", ln(f)),
            ("pat", s(toks(&f.pat))),
            ("iter", expr(&f.expr)),
            ("body", block(&f.body)),
        ]),
        While(w) => obj(vec![("k", s("while")), ("ln", ln(w)), ("cond", expr(&w.cond)), ("body", block(&w.body))]),
        Loop(l) => obj(vec![("k", s("loop")), ("ln", ln(l)), ("body", block(&l.body))]),
        Return(r) => obj(vec![("k", s("return")), ("ln", ln(r)), ("e", opt(&r.expr))]),
        Break(b) => obj(vec![("k", s("break")), ("ln", ln(b)), ("e", opt(&b.expr))]),
        Continue(c) => obj(vec![("k", s("continue")), ("ln", ln(c))]),
        Try(t) => obj(vec![("k", s("try")), ("ln", ln(t)), ("e", expr(&t.expr))]),
        Assign(a) => obj(vec![("k", s("assign")), ("ln", ln(a)), ("l", expr(&a.left)), ("r", expr(&a.right))]),
        Cast(c) => obj(vec![("k", s("cast")), ("ln", ln(c)), ("e", expr(&c.expr)), ("ty", s(toks(&c.ty)))]),
        Paren(p) => expr(&p.expr),
        Group(p) => expr(&p.expr),
        Range(r) => obj(vec![
            ("k", s("range")),
            ("ln", ln(r)),
            ("from", opt(&r.start)),
            ("to", opt(&r.end)),
            ("inclusive", J::Bool(matches!(r.limits, syn::RangeLimits::Closed(_)))),
        ]),
        Repeat(r) => obj(vec![("k", s("repeat")), ("ln", ln(r)), ("e", expr(&r.expr)), ("len", expr(&r.len))]),
        other => obj(vec![("k", s("other")), ("ln", ln(other)), ("src", s(toks(other)))]),
    }
}

fn fn_sig(sig: &syn::Signature) -> J {
    let mut params = Vec::new();
    for a in sig.inputs.iter() {
        match a {
            syn::FnArg::Receiver(r) => params.push(obj(vec![("name", s("self")), ("ty", s(toks(r)))])),
            syn::FnArg::Typed(t) => params.push(obj(vec![("name", s(toks(&t.pat))), ("ty", s(toks(&t.ty)))])),
        }
    }
    obj(vec![
        ("params", J::Arr(params)),
        ("ret", match &sig.output { syn::ReturnType::Type(_, t) => s(toks(t)), _ => J::Null }),
    ])
}

fn has_cfg_test(attrs: &[syn::Attribute]) -> bool {
    attrs.iter().any(|a| a.path().is_ident("cfg") && toks(&a.meta).replace(' ', "").contains("cfg(test)"))
}

fn attrs_j(attrs: &[syn::Attribute]) -> J {
    J::Arr(attrs.iter().filter(|a| !a.path().is_ident("doc")).map(|a| s(toks(&a.meta))).collect())
}

fn item(it: &syn::Item) -> J {
    match it {
        syn::Item::Fn(f) => obj(vec![
            ("k", s("fn")),
            ("name", s(f.sig.ident.to_string())),
            ("ln", ln(&f.sig.ident)),
            ("attrs", attrs_j(&f.attrs)),
            ("sig", fn_sig(&f.sig)),
            ("body", block(&f.block)),
        ]),
        syn::Item::Impl(i) => {
            let mut items = Vec::new();
            for ii in i.items.iter() {
                match ii {
                    syn::ImplItem::Fn(f) => items.push(obj(vec![
                        ("k", s("fn")),
                        ("name", s(f.sig.ident.to_string())),
                        ("ln", ln(&f.sig.ident)),
                        ("attrs", attrs_j(&f.attrs)),
                        ("sig", fn_sig(&f.sig)),
                        ("body", block(&f.block)),
                    ])),
                    syn::ImplItem::Macro(m) => items.push(mac(&m.mac)),
                    _ => {}
                }
            }
            obj(vec![
                ("k", s("impl")),
                ("ln", ln(&i.self_ty)),
                ("self", s(toks(&i.self_ty))),
                ("trait", match &i.trait_ { Some((_, p, _)) => s(toks(p)), None => J::Null }),
                ("items", J::Arr(items)),
            ])
        }
        syn::Item::Trait(t) => {
            let mut items = Vec::new();
            for ti in t.items.iter() {
                if let syn::TraitItem::Fn(f) = ti {
                    let mut v = vec![
                        ("k", s("fn")),
                        ("name", s(f.sig.ident.to_string())),
                        ("ln", ln(&f.sig.ident)),
                        ("sig", fn_sig(&f.sig)),
                    ];
                    if let Some(b) = &f.default {
                        v.push(("body", block(b)));
                    }
                    items.push(obj(v));
                }
            }
            obj(vec![("k", s("trait")), ("name", s(t.ident.to_string())), ("ln", ln(&t.ident)), ("items", J::Arr(items))])
        }
        syn::Item::Mod(m) => {
            let mut v = vec![
                ("k", s("mod")),
                ("name", s(m.ident.to_string())),
                ("ln", ln(&m.ident)),
                ("cfg_test", J::Bool(has_cfg_test(&m.attrs))),
            ];
            if let Some((_, items)) = &m.content {
                v.push(("items", J::Arr(items.iter().map(item).collect())));
            }
            obj(v)
        }
        syn::Item::Macro(m) => {
            let mut j = mac(&m.mac);
            if let J::Obj(v) = &mut j {
                if let Some(id) = &m.ident {
                    v.push(("defines".to_string(), s(id.to_string())));
                }
            }
            j
        }
        syn::Item::Const(c) => obj(vec![
            ("k", s("const")),
            ("name", s(c.ident.to_string())),
            ("ln", ln(&c.ident)),
            ("ty", s(toks(&c.ty))),
            ("e", expr(&c.expr)),
        ]),
        syn::Item::Static(c) => obj(vec![
            ("k", s("static")),
            ("name", s(c.ident.to_string())),
            ("ln", ln(&c.ident)),
            ("mut", J::Bool(matches!(c.mutability, syn::StaticMutability::Mut(_)))),
            ("ty", s(toks(&c.ty))),
            ("e", expr(&c.expr)),
        ]),
        syn::Item::Struct(st) => obj(vec![("k", s("struct")), ("name", s(st.ident.to_string())), ("ln", ln(&st.ident))]),
        syn::Item::Enum(st) => obj(vec![
            ("k", s("enum")),
            ("name", s(st.ident.to_string())),
            ("ln", ln(&st.ident)),
            ("variants", J::Arr(st.variants.iter().map(|v| s(v.ident.to_string())).collect())),
        ]),
        other => obj(vec![("k", s("other")), ("ln", ln(other))]),
    }
}

fn walk(dir: &std::path::Path, out: &mut Vec<std::path::PathBuf>) {
    let mut ents: Vec<_> = std::fs::read_dir(dir).expect("read_dir").filter_map(|e| e.ok()).collect();
    ents.sort_by_key(|e| e.path());
    for e in ents {
        let p = e.path();
        if p.is_dir() {
            walk(&p, out);
        } else if p.extension().map(|x| x == "rs").unwrap_or(false) {
            out.push(p);
        }
    }
}

fn main() {
    let args: Vec<String> = std::env::args().collect();
    if args.len() != 3 {
        eprintln!("usage: synfacts <src-dir> <out.json>");
        std::process::exit(2);
    }
    let root = std::path::Path::new(&args[1]);
    let mut files = Vec::new();
    walk(root, &mut files);
    let mut out = Vec::new();
    for f in files {
        let text = std::fs::read_to_string(&f).expect("read source");
        let rel = f.strip_prefix(root).unwrap().to_string_lossy().to_string();
        match syn::parse_file(&text) {
            Ok(file) => {
                out.push((rel, obj(vec![("items", J::Arr(file.items.iter().map(item).collect()))])));
            }
            Err(e) => {
                eprintln!("synfacts: cannot parse {}: {}", rel, e);
                std::process::exit(1);
            }
        }
    }
    let j = obj(vec![("files", J::Obj(out))]);
    let mut text = String::with_capacity(32 << 20);
    emit(&mut text, &j);
    std::fs::write(&args[2], text).expect("write");
}
