// mirfacts: rustc_private driver that dumps the type-checked MIR of the local
// crate as JSON facts (one file per crate, one write per process).
// Injected with RUSTC_WORKSPACE_WRAPPER; argv[1] is the real rustc path.
#![feature(rustc_private)]
#![allow(clippy::all)]

extern crate rustc_abi;
extern crate rustc_driver;
extern crate rustc_hir;
extern crate rustc_interface;
extern crate rustc_middle;
extern crate rustc_span;

use rustc_driver::Compilation;
use rustc_hir::def::DefKind;
use rustc_hir::def_id::{DefId, LOCAL_CRATE};
use rustc_interface::interface::Compiler;
use rustc_middle::mir::{
    AggregateKind, AssertKind, BasicBlock, Body, Const, Local, Operand, Place, PlaceElem, Rvalue,
    StatementKind, TerminatorKind, UnwindAction,
};
use rustc_middle::ty::print::{with_crate_prefix, with_no_trimmed_paths, with_no_visible_paths};
use rustc_middle::ty::{self, Ty, TyCtxt, TypingEnv};
use rustc_span::Span;
use std::collections::BTreeMap;
use std::fmt::Write as _;

// ---------------------------------------------------------------- JSON
#[derive(Clone)]
enum J {
    Null,
    Bool(bool),
    Int(i128),
    Str(String),
    Arr(Vec<J>),
    Obj(Vec<(String, J)>),
}

fn s(x: impl Into<String>) -> J {
    J::Str(x.into())
}

fn obj(v: Vec<(&str, J)>) -> J {
    J::Obj(v.into_iter().map(|(k, v)| (k.to_string(), v)).collect())
}

fn esc(out: &mut String, st: &str) {
    out.push('"');
    for c in st.chars() {
        match c {
            '"' => out.push_str("\\\""),
            '\\' => out.push_str("\\\\"),
            '\n' => out.push_str("\\n"),
            '\r' => out.push_str("\\r"),
            '\t' => out.push_str("\\t"),
            c if (c as u32) < 0x20 => {
                let _ = write!(out, "\\u{:04x}", c as u32);
            }
            c => out.push(c),
        }
    }
    out.push('"');
}

fn emit(out: &mut String, j: &J) {
    match j {
        J::Null => out.push_str("null"),
        J::Bool(b) => out.push_str(if *b { "true" } else { "false" }),
        J::Int(i) => {
            let _ = write!(out, "{}", i);
        }
        J::Str(st) => esc(out, st),
        J::Arr(v) => {
            out.push('[');
            for (i, x) in v.iter().enumerate() {
                if i > 0 {
                    out.push(',');
                }
                emit(out, x);
            }
            out.push(']');
        }
        J::Obj(v) => {
            out.push('{');
            for (i, (k, x)) in v.iter().enumerate() {
                if i > 0 {
                    out.push(',');
                }
                esc(out, k);
                out.push(':');
                emit(out, x);
            }
            out.push('}');
        }
    }
}

// `a::B::<'a, T>::m` -> `a::B::m` (keys must not depend on generic parameter names);
// paths that start with `<` (trait impl methods) are kept as printed
fn strip_generics(p: &str) -> String {
    if p.starts_with('<') || !p.contains("::<") {
        return p.to_string();
    }
    let b: Vec<char> = p.chars().collect();
    let mut out = String::with_capacity(p.len());
    let mut i = 0;
    while i < b.len() {
        let is_impl = i + 7 < b.len() && b[i + 3..i + 8].iter().collect::<String>() == "impl ";
        if i + 2 < b.len() && b[i] == ':' && b[i + 1] == ':' && b[i + 2] == '<' && !is_impl {
            let mut depth = 0i32;
            let mut j = i + 2;
            while j < b.len() {
                if b[j] == '<' {
                    depth += 1;
                } else if b[j] == '>' && (j == 0 || b[j - 1] != '-') {
                    depth -= 1;
                    if depth == 0 {
                        break;
                    }
                }
                j += 1;
            }
            i = j + 1;
        } else {
            out.push(b[i]);
            i += 1;
        }
    }
    out
}

fn meta_obj(expn: bool, line: usize, macros: Vec<String>) -> J {
    let mut v = vec![("line", J::Int(line as i128))];
    if expn {
        v.push(("expn", J::Bool(true)));
        v.push(("macros", J::Arr(macros.into_iter().map(s).collect())));
    }
    obj(v)
}

// ---------------------------------------------------------------- dumper
struct Cx<'tcx> {
    tcx: TyCtxt<'tcx>,
    krate: String,
}

impl<'tcx> Cx<'tcx> {
    // local paths are printed as `crate::a::b`; rewrite the prefix to the crate name so that
    // the lib's and the bin's facts name the same item identically
    fn fix(&self, p: String) -> String {
        if !p.contains("crate::") {
            return p;
        }
        let mut out = String::with_capacity(p.len() + 8);
        let b = p.as_bytes();
        let mut i = 0;
        while i < b.len() {
            if p[i..].starts_with("crate::")
                && (i == 0 || !(b[i - 1].is_ascii_alphanumeric() || b[i - 1] == b'_'))
            {
                out.push_str(&self.krate);
                out.push_str("::");
                i += 7;
            } else {
                let ch = p[i..].chars().next().unwrap();
                out.push(ch);
                i += ch.len_utf8();
            }
        }
        out
    }

    fn path(&self, did: DefId) -> String {
        let p = self.fix(with_crate_prefix!(with_no_visible_paths!(with_no_trimmed_paths!(self.tcx.def_path_str(did)))));
        strip_generics(&p)
    }

    fn path_args(&self, did: DefId, args: ty::GenericArgsRef<'tcx>) -> String {
        self.fix(with_crate_prefix!(with_no_visible_paths!(with_no_trimmed_paths!(self.tcx.def_path_str_with_args(did, args)))))
    }

    fn ty_str(&self, ty: Ty<'tcx>) -> String {
        self.fix(with_crate_prefix!(with_no_visible_paths!(with_no_trimmed_paths!(format!("{}", ty)))))
    }

    fn adt_of(&self, ty: Ty<'tcx>) -> Option<String> {
        let mut t = ty;
        loop {
            match t.kind() {
                ty::Ref(_, inner, _) => t = *inner,
                ty::RawPtr(inner, _) => t = *inner,
                ty::Adt(def, args) => {
                    if def.is_box() {
                        if let Some(a) = args.types().next() {
                            t = a;
                            continue;
                        }
                    }
                    return Some(self.path(def.did()));
                }
                _ => return None,
            }
        }
    }

    fn span_info(&self, span: Span) -> (String, usize, bool, Vec<String>) {
        let sm = self.tcx.sess.source_map();
        let expn = span.from_expansion();
        let mut macros = Vec::new();
        if expn {
            for e in span.macro_backtrace() {
                match e.kind {
                    rustc_span::ExpnKind::Macro(_, name) => macros.push(name.to_string()),
                    rustc_span::ExpnKind::Desugaring(d) => macros.push(format!("desugar:{:?}", d)),
                    _ => {}
                }
            }
        }
        let cs = span.source_callsite();
        let loc = sm.lookup_char_pos(cs.lo());
        let file = match &loc.file.name {
            rustc_span::FileName::Real(r) => match r.local_path() {
                Some(p) => p.to_string_lossy().to_string(),
                None => format!("{:?}", r),
            },
            other => format!("{:?}", other),
        };
        (file, loc.line, expn, macros)
    }

    fn place(&self, body: &Body<'tcx>, pl: &Place<'tcx>) -> J {
        let tcx = self.tcx;
        let mut pty = rustc_middle::mir::PlaceTy::from_ty(body.local_decls[pl.local].ty);
        let mut proj = Vec::new();
        for elem in pl.projection.iter() {
            let j = match elem {
                PlaceElem::Deref => s("*"),
                PlaceElem::Field(f, _) => {
                    let name = match pty.ty.kind() {
                        ty::Adt(def, _) => {
                            let vi = pty.variant_index.unwrap_or(rustc_abi::FIRST_VARIANT);
                            if def.is_enum() || def.is_struct() || def.is_union() {
                                let v = def.variant(vi);
                                if f.index() < v.fields.len() {
                                    v.fields[f].name.to_string()
                                } else {
                                    format!("{}", f.index())
                                }
                            } else {
                                format!("{}", f.index())
                            }
                        }
                        _ => format!("{}", f.index()),
                    };
                    obj(vec![("f", s(name))])
                }
                PlaceElem::Downcast(name, vi) => {
                    let n = match name {
                        Some(n) => n.to_string(),
                        None => match pty.ty.kind() {
                            ty::Adt(def, _) => def.variant(vi).name.to_string(),
                            _ => format!("{}", vi.index()),
                        },
                    };
                    obj(vec![("v", s(n))])
                }
                PlaceElem::Index(l) => obj(vec![("i", J::Int(l.index() as i128))]),
                PlaceElem::ConstantIndex { offset, from_end, .. } => obj(vec![
                    ("ci", J::Int(offset as i128)),
                    ("from_end", J::Bool(from_end)),
                ]),
                other => obj(vec![("o", s(format!("{:?}", other)))]),
            };
            proj.push(j);
            pty = pty.projection_ty(tcx, elem);
        }
        obj(vec![("l", J::Int(pl.local.index() as i128)), ("p", J::Arr(proj))])
    }

    fn place_ty(&self, body: &Body<'tcx>, pl: &Place<'tcx>) -> Ty<'tcx> {
        pl.ty(&body.local_decls, self.tcx).ty
    }

    fn constant(&self, tenv: TypingEnv<'tcx>, c: &Const<'tcx>) -> J {
        let tcx = self.tcx;
        let ty = c.ty();
        if let ty::FnDef(did, args) = ty.kind() {
            let full = self.path_args(*did, args);
            return obj(vec![("fn", s(self.path(*did))), ("full", s(full))]);
        }
        match ty.kind() {
            ty::Int(_) | ty::Uint(_) | ty::Bool | ty::Char => {
                if let Some(si) = c.try_eval_scalar_int(tcx, tenv) {
                    let size = si.size();
                    let v: i128 = match ty.kind() {
                        ty::Int(_) => si.to_int(size),
                        _ => si.to_uint(size) as i128,
                    };
                    return obj(vec![("int", s(format!("{}", v))), ("ty", s(self.ty_str(ty)))]);
                }
            }
            ty::Float(_) => {
                return obj(vec![
                    ("float", s(self.fix(with_crate_prefix!(with_no_visible_paths!(with_no_trimmed_paths!(format!("{}", c))))))),
                    ("ty", s(self.ty_str(ty))),
                ]);
            }
            ty::Ref(_, inner, _) if inner.is_str() => {
                if let Ok(val) = c.eval(tcx, tenv, rustc_span::DUMMY_SP) {
                    if let Some(bytes) = val.try_get_slice_bytes_for_diagnostics(tcx) {
                        return obj(vec![("str", s(String::from_utf8_lossy(bytes).to_string()))]);
                    }
                }
            }
            _ => {}
        }
        obj(vec![
            ("const", s(self.fix(with_crate_prefix!(with_no_visible_paths!(with_no_trimmed_paths!(format!("{}", c))))))),
            ("ty", s(self.ty_str(ty))),
        ])
    }

    fn operand(&self, body: &Body<'tcx>, tenv: TypingEnv<'tcx>, op: &Operand<'tcx>) -> J {
        match op {
            Operand::Copy(p) => obj(vec![("copy", self.place(body, p))]),
            Operand::Move(p) => obj(vec![("move", self.place(body, p))]),
            Operand::Constant(c) => self.constant(tenv, &c.const_),
            #[allow(unreachable_patterns)]
            other => obj(vec![("const", s(format!("{:?}", other)))]),
        }
    }

    fn rvalue(&self, body: &Body<'tcx>, tenv: TypingEnv<'tcx>, rv: &Rvalue<'tcx>) -> J {
        let tcx = self.tcx;
        match rv {
            Rvalue::Use(op, ..) => obj(vec![("k", s("use")), ("ops", J::Arr(vec![self.operand(body, tenv, op)]))]),
            Rvalue::Ref(_, bk, pl) => obj(vec![
                ("k", s("ref")),
                ("mut", J::Bool(matches!(bk, rustc_middle::mir::BorrowKind::Mut { .. }))),
                ("place", self.place(body, pl)),
            ]),
            Rvalue::RawPtr(_, pl) => obj(vec![("k", s("rawptr")), ("place", self.place(body, pl))]),
            Rvalue::Cast(kind, op, to) => {
                let from = op.ty(&body.local_decls, tcx);
                obj(vec![
                    ("k", s("cast")),
                    ("cast", s(format!("{:?}", kind))),
                    ("from", s(self.ty_str(from))),
                    ("to", s(self.ty_str(*to))),
                    ("ops", J::Arr(vec![self.operand(body, tenv, op)])),
                ])
            }
            Rvalue::BinaryOp(op, ab) => {
                let (a, b) = &**ab;
                let ty = a.ty(&body.local_decls, tcx);
                obj(vec![
                    ("k", s("bin")),
                    ("op", s(format!("{:?}", op))),
                    ("ty", s(self.ty_str(ty))),
                    ("ops", J::Arr(vec![self.operand(body, tenv, a), self.operand(body, tenv, b)])),
                ])
            }
            Rvalue::UnaryOp(op, a) => {
                let ty = a.ty(&body.local_decls, tcx);
                obj(vec![
                    ("k", s("un")),
                    ("op", s(format!("{:?}", op))),
                    ("ty", s(self.ty_str(ty))),
                    ("ops", J::Arr(vec![self.operand(body, tenv, a)])),
                ])
            }
            Rvalue::Discriminant(pl) => {
                let ty = self.place_ty(body, pl);
                obj(vec![
                    ("k", s("discr")),
                    ("place", self.place(body, pl)),
                    ("adt", match self.adt_of(ty) { Some(a) => s(a), None => J::Null }),
                ])
            }
            Rvalue::Aggregate(kind, fields) => {
                let mut v = vec![("k", s("agg"))];
                let mut names: Vec<J> = Vec::new();
                match &**kind {
                    AggregateKind::Adt(did, vi, _, _, _) => {
                        let def = tcx.adt_def(*did);
                        v.push(("adt", s(self.path(*did))));
                        let var = def.variant(*vi);
                        v.push(("variant", s(var.name.to_string())));
                        for f in var.fields.iter() {
                            names.push(s(f.name.to_string()));
                        }
                    }
                    AggregateKind::Tuple => v.push(("adt", s("(tuple)"))),
                    AggregateKind::Array(_) => v.push(("adt", s("[array]"))),
                    AggregateKind::Closure(did, _) => {
                        v.push(("adt", s("{closure}")));
                        v.push(("closure", s(self.path(*did))));
                    }
                    other => v.push(("adt", s(format!("{:?}", other)))),
                }
                v.push(("fields", J::Arr(names)));
                v.push(("ops", J::Arr(fields.iter().map(|o| self.operand(body, tenv, o)).collect())));
                obj(v)
            }
            Rvalue::CopyForDeref(pl) => obj(vec![
                ("k", s("use")),
                ("ops", J::Arr(vec![obj(vec![("copy", self.place(body, pl))])])),
            ]),
            Rvalue::Repeat(op, _) => obj(vec![("k", s("repeat")), ("ops", J::Arr(vec![self.operand(body, tenv, op)]))]),
            other => obj(vec![("k", s("other")), ("dbg", s(format!("{:?}", other)))]),
        }
    }

    fn switch_enum(&self, body: &Body<'tcx>, bb: BasicBlock, discr: &Operand<'tcx>) -> Option<(J, Ty<'tcx>)> {
        // find `_x = discriminant(place)` in the same block
        let l: Local = match discr {
            Operand::Copy(p) | Operand::Move(p) if p.projection.is_empty() => p.local,
            _ => return None,
        };
        for st in body.basic_blocks[bb].statements.iter().rev() {
            if let StatementKind::Assign(b) = &st.kind {
                let (pl, rv) = &**b;
                if pl.local == l && pl.projection.is_empty() {
                    if let Rvalue::Discriminant(src) = rv {
                        let ty = self.place_ty(body, src);
                        return Some((self.place(body, src), ty));
                    }
                    return None;
                }
            }
        }
        None
    }

    fn unwind(&self, u: &UnwindAction) -> J {
        match u {
            UnwindAction::Cleanup(b) => J::Int(b.index() as i128),
            _ => J::Null,
        }
    }

    fn body(&self, did: DefId, body: &Body<'tcx>) -> J {
        let tcx = self.tcx;
        let tenv = TypingEnv::post_analysis(tcx, did);
        let (file, line, _, _) = self.span_info(body.span);
        let mut locals = Vec::new();
        for (_l, d) in body.local_decls.iter_enumerated() {
            locals.push(obj(vec![
                ("ty", s(self.ty_str(d.ty))),
                ("adt", match self.adt_of(d.ty) { Some(a) => s(a), None => J::Null }),
            ]));
        }
        let mut vars = Vec::new();
        for vdi in body.var_debug_info.iter() {
            if let rustc_middle::mir::VarDebugInfoContents::Place(p) = &vdi.value {
                vars.push(obj(vec![("name", s(vdi.name.to_string())), ("place", self.place(body, p))]));
            }
        }
        let mut blocks = Vec::new();
        for (bb, data) in body.basic_blocks.iter_enumerated() {
            let mut stmts = Vec::new();
            for st in data.statements.iter() {
                match &st.kind {
                    StatementKind::Assign(b) => {
                        let (pl, rv) = &**b;
                        let (_, line, expn, macros) = self.span_info(st.source_info.span);
                        stmts.push(J::Arr(vec![
                            s("assign"),
                            self.place(body, pl),
                            self.rvalue(body, tenv, rv),
                            meta_obj(expn, line, macros),
                        ]));
                    }
                    StatementKind::SetDiscriminant { place, variant_index } => {
                        let ty = self.place_ty(body, place);
                        let name = match ty.kind() {
                            ty::Adt(def, _) => def.variant(*variant_index).name.to_string(),
                            _ => format!("{}", variant_index.index()),
                        };
                        stmts.push(J::Arr(vec![s("setdiscr"), self.place(body, place), s(name)]));
                    }
                    _ => {}
                }
            }
            let term = data.terminator();
            let (_, tline, texpn, tmacros) = self.span_info(term.source_info.span);
            let mut meta = vec![("line", J::Int(tline as i128))];
            if texpn {
                meta.push(("expn", J::Bool(true)));
                meta.push(("macros", J::Arr(tmacros.into_iter().map(s).collect())));
            }
            let mut t: Vec<(&str, J)> = match &term.kind {
                TerminatorKind::Goto { target } => vec![("k", s("goto")), ("t", J::Int(target.index() as i128))],
                TerminatorKind::SwitchInt { discr, targets } => {
                    let en = self.switch_enum(body, bb, discr);
                    let dty = discr.ty(&body.local_decls, tcx);
                    let mut tg = Vec::new();
                    for (val, target) in targets.iter() {
                        let mut e = vec![("val", s(format!("{}", val))), ("t", J::Int(target.index() as i128))];
                        if let Some((_, ety)) = &en {
                            if let ty::Adt(def, _) = ety.kind() {
                                if def.is_enum() {
                                    for (vi, d) in def.discriminants(tcx) {
                                        if d.val == val {
                                            e.push(("variant", s(def.variant(vi).name.to_string())));
                                        }
                                    }
                                }
                            }
                        }
                        tg.push(obj(e));
                    }
                    let mut v = vec![
                        ("k", s("switch")),
                        ("on", self.operand(body, tenv, discr)),
                        ("ty", s(self.ty_str(dty))),
                        ("targets", J::Arr(tg)),
                        ("otherwise", J::Int(targets.otherwise().index() as i128)),
                    ];
                    if let Some((pl, ety)) = en {
                        v.push(("src", pl));
                        v.push(("enum", match self.adt_of(ety) { Some(a) => s(a), None => J::Null }));
                        if let ty::Adt(def, _) = ety.kind() {
                            if def.is_enum() {
                                v.push((
                                    "all_variants",
                                    J::Arr(def.variants().iter().map(|x| s(x.name.to_string())).collect()),
                                ));
                            }
                        }
                    }
                    v
                }
                TerminatorKind::Return => vec![("k", s("return"))],
                TerminatorKind::Unreachable => vec![("k", s("unreachable"))],
                TerminatorKind::UnwindResume => vec![("k", s("resume"))],
                TerminatorKind::UnwindTerminate(_) => vec![("k", s("terminate"))],
                TerminatorKind::Drop { place, target, unwind, .. } => vec![
                    ("k", s("drop")),
                    ("place", self.place(body, place)),
                    ("t", J::Int(target.index() as i128)),
                    ("unwind", self.unwind(unwind)),
                ],
                TerminatorKind::Call { func, args, destination, target, unwind, .. } => {
                    let mut v = vec![("k", s("call"))];
                    if let Some((cdid, cargs)) = func.const_fn_def() {
                        let declared = self.path_args(cdid, cargs);
                        v.push(("callee", s(self.path(cdid))));
                        v.push(("callee_full", s(declared)));
                        let resolved = ty::Instance::try_resolve(tcx, tenv, cdid, cargs).ok().flatten();
                        match resolved {
                            Some(inst) => {
                                let rdid = inst.def_id();
                                v.push(("resolved", s(self.path(rdid))));
                                let rfull = self.path_args(rdid, inst.args);
                                v.push(("resolved_full", s(rfull)));
                                v.push(("resolved_kind", s(match inst.def {
                                    ty::InstanceKind::Item(_) => "item",
                                    ty::InstanceKind::Virtual(..) => "virtual",
                                    ty::InstanceKind::Intrinsic(_) => "intrinsic",
                                    ty::InstanceKind::ClosureOnceShim { .. } => "closure_once",
                                    ty::InstanceKind::FnPtrShim(..) => "fnptr_shim",
                                    ty::InstanceKind::CloneShim(..) => "clone_shim",
                                    ty::InstanceKind::DropGlue(..) => "drop_glue",
                                    _ => "other",
                                })));
                            }
                            None => v.push(("resolved", J::Null)),
                        }
                        if let Some(tr) = tcx.trait_of_assoc(cdid) {
                            v.push((
                                "trait_method",
                                obj(vec![
                                    ("trait", s(self.path(tr))),
                                    ("name", s(tcx.item_name(cdid).to_string())),
                                    ("self", match cargs.types().next() { Some(t) => s(self.ty_str(t)), None => J::Null }),
                                ]),
                            ));
                        }
                        v.push(("targs", J::Arr(cargs.types().map(|t| s(self.ty_str(t))).collect())));
                    } else {
                        v.push(("callee", J::Null));
                        v.push(("fnptr", self.operand(body, tenv, func)));
                    }
                    v.push(("args", J::Arr(args.iter().map(|a| self.operand(body, tenv, &a.node)).collect())));
                    v.push(("dest", self.place(body, destination)));
                    v.push(("t", match target { Some(t) => J::Int(t.index() as i128), None => J::Null }));
                    v.push(("unwind", self.unwind(unwind)));
                    v
                }
                TerminatorKind::Assert { cond, expected, msg, target, unwind } => {
                    let (kind, op, ty): (&str, String, String) = match &**msg {
                        AssertKind::BoundsCheck { .. } => ("BoundsCheck", String::new(), String::new()),
                        AssertKind::Overflow(op, a, _) => (
                            "Overflow",
                            format!("{:?}", op),
                            self.ty_str(a.ty(&body.local_decls, tcx)),
                        ),
                        AssertKind::OverflowNeg(a) => ("OverflowNeg", String::new(), self.ty_str(a.ty(&body.local_decls, tcx))),
                        AssertKind::DivisionByZero(a) => ("DivisionByZero", String::new(), self.ty_str(a.ty(&body.local_decls, tcx))),
                        AssertKind::RemainderByZero(a) => ("RemainderByZero", String::new(), self.ty_str(a.ty(&body.local_decls, tcx))),
                        AssertKind::MisalignedPointerDereference { .. } => ("Misaligned", String::new(), String::new()),
                        AssertKind::NullPointerDereference => ("NullPtr", String::new(), String::new()),
                        _ => ("Other", format!("{:?}", msg), String::new()),
                    };
                    let mut v = vec![
                        ("k", s("assert")),
                        ("cond", self.operand(body, tenv, cond)),
                        ("expected", J::Bool(*expected)),
                        ("kind", s(kind)),
                        ("op", s(op)),
                        ("ty", s(ty)),
                        ("t", J::Int(target.index() as i128)),
                        ("unwind", self.unwind(unwind)),
                    ];
                    match &**msg {
                        AssertKind::Overflow(_, a, b) => {
                            v.push(("ops", J::Arr(vec![self.operand(body, tenv, a), self.operand(body, tenv, b)])));
                        }
                        AssertKind::BoundsCheck { len, index } => {
                            v.push(("ops", J::Arr(vec![self.operand(body, tenv, len), self.operand(body, tenv, index)])));
                        }
                        AssertKind::DivisionByZero(a) | AssertKind::RemainderByZero(a) | AssertKind::OverflowNeg(a) => {
                            v.push(("ops", J::Arr(vec![self.operand(body, tenv, a)])));
                        }
                        _ => {}
                    }
                    v
                }
                TerminatorKind::FalseEdge { real_target, .. } => vec![("k", s("goto")), ("t", J::Int(real_target.index() as i128))],
                TerminatorKind::FalseUnwind { real_target, .. } => vec![("k", s("goto")), ("t", J::Int(real_target.index() as i128))],
                other => vec![("k", s("other")), ("dbg", s(format!("{:?}", other)))],
            };
            t.extend(meta);
            blocks.push(obj(vec![
                ("cleanup", J::Bool(data.is_cleanup)),
                ("stmts", J::Arr(stmts)),
                ("term", obj(t)),
            ]));
        }
        let mut promoted = Vec::new();
        if !matches!(tcx.def_kind(did), DefKind::Closure) || true {
            if let Some(ld) = did.as_local() {
                let _ = ld;
                let proms = tcx.promoted_mir(did);
                for pb in proms.iter() {
                    let mut consts = Vec::new();
                    for data in pb.basic_blocks.iter() {
                        for st in data.statements.iter() {
                            if let StatementKind::Assign(b) = &st.kind {
                                let (_, rv) = &**b;
                                let mut ops: Vec<&Operand<'tcx>> = Vec::new();
                                match rv {
                                    Rvalue::Use(o, ..) => ops.push(o),
                                    Rvalue::Cast(_, o, _) => ops.push(o),
                                    Rvalue::Aggregate(kind, fs) => {
                                        if let AggregateKind::Adt(adid, vi, _, _, _) = &**kind {
                                            let def = tcx.adt_def(*adid);
                                            consts.push(obj(vec![
                                                ("agg", s(self.path(*adid))),
                                                ("variant", s(def.variant(*vi).name.to_string())),
                                            ]));
                                        }
                                        for o in fs.iter() {
                                            ops.push(o)
                                        }
                                    }
                                    _ => {}
                                }
                                for o in ops {
                                    if let Operand::Constant(c) = o {
                                        consts.push(self.constant(tenv, &c.const_));
                                    }
                                }
                            }
                        }
                    }
                    promoted.push(J::Arr(consts));
                }
            }
        }
        let generics = tcx.generics_of(did);
        let is_generic = generics.requires_monomorphization(tcx);
        let mut v = vec![
            ("file", s(file)),
            ("line", J::Int(line as i128)),
            ("kind", s(format!("{:?}", tcx.def_kind(did)))),
            ("derived", J::Bool(tcx.is_automatically_derived(self.impl_or_self(did)))),
            ("generic", J::Bool(is_generic)),
            ("args", J::Int(body.arg_count as i128)),
            ("locals", J::Arr(locals)),
            ("vars", J::Arr(vars)),
            ("promoted", J::Arr(promoted)),
            ("blocks", J::Arr(blocks)),
        ];
        // parent impl / trait information
        if let Some(parent) = tcx.opt_parent(did) {
            if let DefKind::Impl { of_trait } = tcx.def_kind(parent) {
                let self_ty = tcx.type_of(parent).instantiate_identity().skip_norm_wip();
                v.push(("impl_self", s(self.ty_str(self_ty))));
                if of_trait {
                    let tr = tcx.impl_trait_ref(parent).instantiate_identity().skip_norm_wip();
                    v.push(("impl_trait", s(self.path(tr.def_id))));
                }
            }
            if matches!(tcx.def_kind(did), DefKind::Closure) {
                v.push(("parent", s(self.path(parent))));
            }
        }
        obj(v)
    }

    fn impl_or_self(&self, did: DefId) -> DefId {
        let tcx = self.tcx;
        let mut d = did;
        // closures inside derived impls: climb to the impl
        loop {
            match tcx.def_kind(d) {
                DefKind::Impl { .. } => return d,
                _ => match tcx.opt_parent(d) {
                    Some(p) => {
                        if matches!(tcx.def_kind(p), DefKind::Mod) {
                            return did;
                        }
                        d = p
                    }
                    None => return did,
                },
            }
        }
    }

    fn adts(&self) -> J {
        let tcx = self.tcx;
        let mut out: BTreeMap<String, J> = BTreeMap::new();
        for id in tcx.hir_crate_items(()).definitions() {
            let did = id.to_def_id();
            match tcx.def_kind(did) {
                DefKind::Struct | DefKind::Enum => {}
                _ => continue,
            }
            let def = tcx.adt_def(did);
            let mut variants = Vec::new();
            for (vi, var) in def.variants().iter_enumerated() {
                let mut fields = Vec::new();
                for f in var.fields.iter() {
                    let fty = tcx.type_of(f.did).instantiate_identity().skip_norm_wip();
                    let mut reaches: Vec<String> = Vec::new();
                    for ga in fty.walk() {
                        if let Some(t) = ga.as_type() {
                            if let ty::Adt(d2, _) = t.kind() {
                                let p = self.path(d2.did());
                                if !reaches.contains(&p) {
                                    reaches.push(p);
                                }
                            }
                        }
                    }
                    fields.push(obj(vec![
                        ("name", s(f.name.to_string())),
                        ("ty", s(self.ty_str(fty))),
                        ("reaches", J::Arr(reaches.into_iter().map(s).collect())),
                    ]));
                }
                let discr = if def.is_enum() {
                    J::Str(format!("{}", def.discriminant_for_variant(tcx, vi).val))
                } else {
                    J::Null
                };
                variants.push(obj(vec![
                    ("name", s(var.name.to_string())),
                    ("discr", discr),
                    ("fields", J::Arr(fields)),
                ]));
            }
            let (file, line, _, _) = self.span_info(tcx.def_span(did));
            out.insert(
                self.path(did),
                obj(vec![
                    ("kind", s(if def.is_enum() { "enum" } else { "struct" })),
                    ("file", s(file)),
                    ("line", J::Int(line as i128)),
                    ("variants", J::Arr(variants)),
                ]),
            );
        }
        J::Obj(out.into_iter().collect())
    }

    fn impls(&self) -> J {
        let tcx = self.tcx;
        let mut out = Vec::new();
        for id in tcx.hir_crate_items(()).definitions() {
            let did = id.to_def_id();
            if let DefKind::Impl { of_trait } = tcx.def_kind(did) {
                let self_ty = tcx.type_of(did).instantiate_identity().skip_norm_wip();
                let mut methods = Vec::new();
                for it in tcx.associated_items(did).in_definition_order() {
                    if matches!(it.kind, ty::AssocKind::Fn { .. }) {
                        methods.push((it.name().to_string(), s(self.path(it.def_id))));
                    }
                }
                let tr = if of_trait {
                    let t = tcx.impl_trait_ref(did).instantiate_identity().skip_norm_wip();
                    s(self.path(t.def_id))
                } else {
                    J::Null
                };
                out.push(obj(vec![
                    ("trait", tr),
                    ("self", s(self.ty_str(self_ty))),
                    ("self_adt", match self.adt_of(self_ty) { Some(a) => s(a), None => J::Null }),
                    ("derived", J::Bool(tcx.is_automatically_derived(did))),
                    ("methods", J::Obj(methods)),
                ]));
            }
        }
        J::Arr(out)
    }

    fn traits(&self) -> J {
        // local traits: provided (default) methods
        let tcx = self.tcx;
        let mut out = Vec::new();
        for id in tcx.hir_crate_items(()).definitions() {
            let did = id.to_def_id();
            if let DefKind::Trait = tcx.def_kind(did) {
                let mut methods = Vec::new();
                for it in tcx.associated_items(did).in_definition_order() {
                    if matches!(it.kind, ty::AssocKind::Fn { .. }) {
                        methods.push((
                            it.name().to_string(),
                            obj(vec![("path", s(self.path(it.def_id))), ("has_default", J::Bool(it.defaultness(tcx).has_value()))]),
                        ));
                    }
                }
                out.push(obj(vec![("trait", s(self.path(did))), ("methods", J::Obj(methods))]));
            }
        }
        J::Arr(out)
    }

    fn dump(&self) -> J {
        let tcx = self.tcx;
        let mut fns: BTreeMap<String, J> = BTreeMap::new();
        for ldid in tcx.mir_keys(()).iter() {
            let did = ldid.to_def_id();
            match tcx.def_kind(did) {
                DefKind::Fn | DefKind::AssocFn | DefKind::Closure => {}
                _ => continue,
            }
            if !tcx.is_mir_available(did) {
                continue;
            }
            let body = tcx.optimized_mir(did);
            let mut key = self.path(did);
            // disambiguate equal def-path strings (methods of different impls print alike only
            // when the impl has no nameable self; keep a counter suffix to stay unique)
            if fns.contains_key(&key) {
                let mut n = 1;
                while fns.contains_key(&format!("{}#{}", key, n)) {
                    n += 1;
                }
                key = format!("{}#{}", key, n);
            }
            fns.insert(key, self.body(did, body));
        }
        obj(vec![
            ("crate", s(self.krate.clone())),
            ("adts", self.adts()),
            ("impls", self.impls()),
            ("traits", self.traits()),
            ("fns", J::Obj(fns.into_iter().collect())),
        ])
    }
}

struct Cb;

impl rustc_driver::Callbacks for Cb {
    fn after_analysis<'tcx>(&mut self, _c: &Compiler, tcx: TyCtxt<'tcx>) -> Compilation {
        let name = tcx.crate_name(LOCAL_CRATE).to_string();
        let wanted = std::env::var("MIRFACTS_CRATES").unwrap_or_else(|_| "ucglib,ucg".to_string());
        if wanted.split(',').any(|w| w == name) {
            let out_dir = std::env::var("MIRFACTS_OUT").expect("MIRFACTS_OUT not set");
            let cx = Cx { tcx, krate: name.clone() };
            let j = cx.dump();
            let mut text = String::with_capacity(64 << 20);
            emit(&mut text, &j);
            let tmp = format!("{}/{}.json.tmp.{}", out_dir, name, std::process::id());
            std::fs::write(&tmp, text).expect("write facts");
            std::fs::rename(&tmp, format!("{}/{}.json", out_dir, name)).expect("rename facts");
        }
        Compilation::Continue
    }
}

fn main() {
    let mut args: Vec<String> = std::env::args().collect();
    // RUSTC_WORKSPACE_WRAPPER passes the real rustc as argv[1]
    if args.len() > 1 && (args[1].ends_with("rustc") || args[1].contains("/rustc")) {
        args.remove(1);
    }
    let mut cb = Cb;
    rustc_driver::run_compiler(&args, &mut cb);
}
