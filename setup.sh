#!/bin/bash
# Builds both engines offline and warms the dependency check of /repo.
set -e
cd "$(dirname "$0")"
export CARGO_NET_OFFLINE=true
(cd engines/mirfacts && cargo build --offline 2>&1 | tail -2)
(cd engines/synfacts && cargo build --offline 2>&1 | tail -2)
python3 -m ucgverif.extract default
echo "setup done"
